"""Tiny exact multivariate polynomial ring (C06 oracle).

Coefficients are ``fractions.Fraction`` (a float constant of a lambda enters as the exact rational it
is), so +, -, *, / scalar and integer powers are performed without any rounding: evaluating one of the
hand-typed shape-function lambdas on ``Poly.variables(dim)`` returns *the* polynomial the lambda
denotes.  Formal differentiation, evaluation and a coefficient-wise distance are written here and do
not use EasyFEA, numpy polynomials or sympy.
"""

from __future__ import annotations

from fractions import Fraction
from numbers import Number


def _frac(v) -> Fraction:
    if isinstance(v, Fraction):
        return v
    if isinstance(v, bool):
        return Fraction(int(v))
    if isinstance(v, int):
        return Fraction(v)
    if isinstance(v, float):
        return Fraction(v)  # exact
    if hasattr(v, "item"):  # numpy scalar
        return _frac(v.item())
    raise TypeError(f"Poly: unsupported scalar {type(v).__name__}")


class Poly:
    """sum_e c[e] * prod_k x_k**e_k with exact rational coefficients."""

    __slots__ = ("nvar", "c")
    __array_ufunc__ = None  # numpy scalars on the left defer to the reflected operators

    def __init__(self, nvar: int, c: dict | None = None):
        self.nvar = nvar
        self.c = {e: v for e, v in (c or {}).items() if v != 0}

    # -- constructors -------------------------------------------------------------------------
    @staticmethod
    def const(nvar: int, v) -> "Poly":
        return Poly(nvar, {(0,) * nvar: _frac(v)})

    @staticmethod
    def variables(nvar: int):
        out = []
        for k in range(nvar):
            e = [0] * nvar
            e[k] = 1
            out.append(Poly(nvar, {tuple(e): Fraction(1)}))
        return out

    @staticmethod
    def monomial(exps) -> "Poly":
        return Poly(len(exps), {tuple(int(a) for a in exps): Fraction(1)})

    @staticmethod
    def lift(nvar: int, v) -> "Poly":
        """what a table lambda returned (a Poly, or a plain number for constant entries)."""
        if isinstance(v, Poly):
            assert v.nvar == nvar
            return v
        return Poly.const(nvar, v)

    def _coerce(self, o):
        if isinstance(o, Poly):
            if o.nvar != self.nvar:
                raise TypeError("Poly: mixed number of variables")
            return o
        if isinstance(o, (Number, Fraction)) or hasattr(o, "item"):
            return Poly.const(self.nvar, o)
        return None

    # -- ring operations ----------------------------------------------------------------------
    def __add__(self, o):
        o = self._coerce(o)
        if o is None:
            return NotImplemented
        c = dict(self.c)
        for e, v in o.c.items():
            c[e] = c.get(e, 0) + v
        return Poly(self.nvar, c)

    __radd__ = __add__

    def __neg__(self):
        return Poly(self.nvar, {e: -v for e, v in self.c.items()})

    def __pos__(self):
        return self

    def __sub__(self, o):
        o = self._coerce(o)
        if o is None:
            return NotImplemented
        return self + (-o)

    def __rsub__(self, o):
        o = self._coerce(o)
        if o is None:
            return NotImplemented
        return o + (-self)

    def __mul__(self, o):
        o = self._coerce(o)
        if o is None:
            return NotImplemented
        c: dict = {}
        for e1, v1 in self.c.items():
            for e2, v2 in o.c.items():
                e = tuple(a + b for a, b in zip(e1, e2))
                c[e] = c.get(e, 0) + v1 * v2
        return Poly(self.nvar, c)

    __rmul__ = __mul__

    def __truediv__(self, o):
        if isinstance(o, Poly):
            if o.degree() > 0:
                raise TypeError("Poly: division by a non-constant polynomial")
            o = o.c.get((0,) * self.nvar, Fraction(0))
        d = _frac(o)
        return Poly(self.nvar, {e: v / d for e, v in self.c.items()})

    def __pow__(self, n):
        if hasattr(n, "item"):
            n = n.item()
        if isinstance(n, float) and n == int(n):
            n = int(n)
        if not isinstance(n, int) or n < 0:
            raise TypeError("Poly: only non-negative integer powers")
        out = Poly.const(self.nvar, 1)
        base = self
        while n:
            if n & 1:
                out = out * base
            n >>= 1
            if n:
                base = base * base
        return out

    # -- calculus / evaluation ----------------------------------------------------------------
    def deriv(self, k: int, times: int = 1) -> "Poly":
        p = self
        for _ in range(times):
            c = {}
            for e, v in p.c.items():
                if e[k] == 0:
                    continue
                e2 = list(e)
                e2[k] -= 1
                c[tuple(e2)] = v * e[k]
            p = Poly(self.nvar, c)
        return p

    def __call__(self, *x):
        """exact evaluation when x are Fractions/ints, float evaluation (via exact sum) otherwise"""
        assert len(x) == self.nvar
        xs = [_frac(v) for v in x]
        tot = Fraction(0)
        for e, v in self.c.items():
            t = v
            for xk, ek in zip(xs, e):
                if ek:
                    t = t * xk**ek
            tot += t
        return tot

    def degree(self) -> int:
        return max((sum(e) for e in self.c), default=0)

    def degree_in(self, k: int) -> int:
        return max((e[k] for e in self.c), default=0)

    def is_constant(self) -> bool:
        return self.degree() == 0

    def is_zero(self) -> bool:
        return not self.c

    def max_abs(self) -> float:
        return float(max((abs(v) for v in self.c.values()), default=Fraction(0)))

    def dist(self, o: "Poly") -> float:
        """max coefficient-wise |difference| (exact subtraction, rounded once at the end)"""
        return (self - o).max_abs()

    def as_dict(self) -> dict:
        return {",".join(map(str, e)): float(v) for e, v in sorted(self.c.items())}

    def __repr__(self):
        return "Poly(" + ", ".join(f"{float(v):.17g}*x^{list(e)}" for e, v in sorted(self.c.items())) + ")"
