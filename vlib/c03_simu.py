"""C03 helpers: a user subclass of `_Simu` (the documented extension point) whose
Construct_local_matrix_system returns *generated* element arrays, and the dense re-summation oracle
written from `connect` only (no Get_assembly_e / Get_rows_e / Get_columns_e, no scipy.sparse)."""

from __future__ import annotations

import numpy as np

from EasyFEA.Models._utils import _IModel
from EasyFEA.Simulations._problem_type import ProblemType
from EasyFEA.Simulations._simu import _Simu

UNKNOWNS = ["x", "y", "z", "rx", "ry", "rz"]
SLOTS = ("K", "C", "M", "F")


class HarnessModel(_IModel):
    """minimal model: the simulation observes it, `Need_Update()` notifies the simulation exactly as
    the built-in models do when one of their parameters is set."""

    def __init__(self, dim: int):
        self._dim = dim

    @property
    def dim(self) -> int:
        return self._dim

    @property
    def thickness(self) -> float:
        return 1.0


class HarnessSimu(_Simu):
    """1 or 2 problem types with their own dofs per node; the local system comes from `provider`
    (callable (simu, problemIndex) -> {groupElem: (K_e, C_e, M_e, F_e)})."""

    def __init__(self, mesh, list_dof_n, provider):
        self._list_dof_n = [int(d) for d in list_dof_n]
        self._pts = [ProblemType(f"harness{i}") for i in range(len(self._list_dof_n))]
        self._provider = provider
        super().__init__(mesh, HarnessModel(mesh.dim), verbosity=False)

    def _idx(self, problemType) -> int:
        return 0 if problemType is None else self._pts.index(problemType)

    def _Check_dim_mesh_material(self) -> None:
        pass

    def Get_problemTypes(self):
        return list(self._pts)

    def Get_unknowns(self, problemType=None):
        return UNKNOWNS[: self._list_dof_n[self._idx(problemType)]]

    def Get_dof_n(self, problemType=None) -> int:
        return self._list_dof_n[self._idx(problemType)]

    def Get_x0(self, problemType=None):
        return np.zeros(self.mesh.Nn * self.Get_dof_n(problemType))

    def Construct_local_matrix_system(self, problemType):
        return self._provider(self, self._idx(problemType))

    def Save_Iter(self, iter=None):
        return super().Save_Iter({} if iter is None else iter)

    def Set_Iter(self, iter: int = -1, resetAll=False):
        return super().Set_Iter(iter)

    def Results_Available(self):
        return []

    def Result(self, result, nodeValues=True, iter=None):
        return None

    def Results_Iter_Summary(self):
        return [], []

    def Results_dict_Energy(self):
        return {}

    def Results_displacement_matrix(self):
        return np.zeros((self.mesh.Nn, 3))

    def Results_nodeFields_elementFields(self, details=False):
        return [], []


# ------------------------------------------------------------------------------------------
# groups and generated element values


def candidate_groups(mesh):
    """main-dimension groups first, then the boundary groups (dim-1, then dim-2); POINT groups last.
    The order is a pure function of the mesh (Get_list_groupElem is documented as stable)."""
    out = []
    for d in range(mesh.dim, -1, -1):
        out.extend(mesh.Get_list_groupElem(d))
    return out


def element_values(seed: int, version: int, prob: int, gidx: int, slot: int, Ne: int, n: int, cplx: bool, fshape: int):
    """O(1) values, a pure function of the integers"""
    rng = np.random.default_rng([int(seed), int(version), int(prob), int(gidx), int(slot)])
    shape = (Ne, n, n) if slot < 3 else ((Ne, n) if fshape == 0 else (Ne, n, 1))
    X = rng.uniform(-1.0, 1.0, shape)
    if cplx:
        X = X + 1j * rng.uniform(-1.0, 1.0, shape)
    # same values in different memory layouts (a caller's einsum / slicing decides the strides, not the values):
    # C order, the block-transposed layout einsum("...ji,...jk->...ik") style operators return, Fortran order,
    # a strided view into a larger buffer
    layout = (int(seed) + 3 * int(gidx) + int(slot) + int(version)) % 4
    if layout == 1 and X.ndim == 3:
        X = np.ascontiguousarray(X.transpose(0, 2, 1)).transpose(0, 2, 1)
    elif layout == 2:
        X = np.asfortranarray(X)
    elif layout == 3:
        big = np.zeros(tuple(2 * k for k in X.shape), dtype=X.dtype)
        big[tuple(slice(None, None, 2) for _ in X.shape)] = X
        X = big[tuple(slice(None, None, 2) for _ in X.shape)]
    return X


# ------------------------------------------------------------------------------------------
# oracle: dense loop re-summation from `connect`


def _dofs(connect: np.ndarray, dof_n: int) -> np.ndarray:
    Ne, nPe = connect.shape
    return (np.asarray(connect, np.int64)[:, :, None] * dof_n + np.arange(dof_n)[None, None, :]).reshape(Ne, nPe * dof_n)


def scatter_matrix(out: np.ndarray, connect: np.ndarray, dof_n: int, X_e) -> np.ndarray:
    """out[node_i*dof_n+ci, node_j*dof_n+cj] += X_e[e, i*dof_n+ci, j*dof_n+cj], element by element"""
    X = np.asarray(X_e)
    dofs = _dofs(connect, dof_n)
    Ne, n = dofs.shape
    X = X.reshape(Ne, n, n)
    for e in range(Ne):
        d = dofs[e]
        if np.unique(d).size == d.size:
            out[np.ix_(d, d)] += X[e]
        else:  # an element listing a node twice: fancy += would drop contributions
            for i in range(n):
                for j in range(n):
                    out[d[i], d[j]] += X[e, i, j]
    return out


def scatter_vector(out: np.ndarray, connect: np.ndarray, dof_n: int, F_e) -> np.ndarray:
    F = np.asarray(F_e)
    dofs = _dofs(connect, dof_n)
    Ne, n = dofs.shape
    F = F.reshape(Ne, n)
    for e in range(Ne):
        d = dofs[e]
        for i in range(n):
            out[d[i]] += F[e, i]
    return out


def dense_system(local: dict, dof_n: int, Ndof: int):
    """oracle for the four outputs from a {group: (K_e, C_e, M_e, F_e)} dictionary.
    Returns [K, C, M, F] dense (F as (Ndof,)) and the expected complex flag per slot."""
    outs, cplx = [], []
    for s in range(4):
        arrs = [(g, t[s]) for g, t in local.items() if t[s] is not None]
        is_c = any(np.iscomplexobj(a) for _, a in arrs)
        dt = complex if is_c else float
        D = np.zeros((Ndof, Ndof) if s < 3 else (Ndof,), dtype=dt)
        for g, a in arrs:
            if g.Ne == 0:
                continue
            if s < 3:
                scatter_matrix(D, g.connect, dof_n, a)
            else:
                scatter_vector(D, g.connect, dof_n, a)
        outs.append(D)
        cplx.append(is_c)
    return outs, cplx


def csr_wellformed(A) -> str:
    """'' when A is a well formed canonical CSR (what `has_canonical_format = True` promises)"""
    indptr, indices = np.asarray(A.indptr), np.asarray(A.indices)
    nrow, ncol = A.shape
    if indptr.size != nrow + 1 or indptr[0] != 0 or indptr[-1] != indices.size or A.data.size != indices.size:
        return "indptr/indices/data sizes inconsistent"
    if np.any(np.diff(indptr) < 0):
        return "indptr not monotone"
    if indices.size and (indices.min() < 0 or indices.max() >= ncol):
        return "column index out of range"
    if indices.size > 1:
        same_row = np.ones(indices.size - 1, dtype=bool)
        ends = indptr[1:-1]
        ends = ends[(ends > 0) & (ends < indices.size)]
        same_row[ends - 1] = False
        if np.any((np.diff(indices) <= 0) & same_row):
            return "column indices not strictly increasing inside a row (duplicates or unsorted)"
    return ""
