"""Helpers of the C18 check: tiny meshes of every 2D/3D element type, kinematics written from the
definitions (independent of EasyFEA), law factory, jax restatements of the shipped potentials and
a few user energies for `Models.HyperElastic.AutoDiff`."""

from __future__ import annotations

import functools

import numpy as np
from hypothesis import strategies as st

from EasyFEA import ElemType, Models
from EasyFEA.FEM._linalg import FeArray
from EasyFEA.Geoms import Domain

from . import gen_mesh as gm

HE = Models.HyperElastic
SQ2 = np.sqrt(2.0)
LAWS = ["NeoHookean", "MooneyRivlin", "CiarletGeymonat", "SaintVenantKirchhoff", "HolzapfelOgden"]
USER = ["yeoh", "fung", "fibre"]  # AutoDiff user energies (no hand-written counterpart)


# ------------------------------------------------------------------------------------------
# meshes: organised unit cells (1-12 elements), smooth warp + affine image


@functools.lru_cache(maxsize=128)
def _base(elemType: str, cells: int, layers: int):
    et = ElemType(elemType)
    dom = Domain((0, 0), (float(cells), 1.0), 1.0)
    if gm.dim_of(elemType) == 2:
        return dom.Mesh_2D([], et, isOrganised=True)
    return dom.Mesh_Extrude([], [0, 0, 1], [int(layers)], et, isOrganised=True)


@st.composite
def mesh_recipes(draw, types=None, dims=(2, 3), warp_ok=True):
    if types is None:
        dim = draw(st.sampled_from(list(dims)))
        types = gm.T2D if dim == 2 else gm.T3D
    et = draw(st.sampled_from(types))
    dim = gm.dim_of(et)
    heavy = et in ("HEXA20", "HEXA27", "TETRA10", "PRISM15", "PRISM18", "TRI15")
    cells = 1 if heavy else draw(st.integers(1, 2))
    layers = 1 if (dim == 2 or heavy or cells == 2) else draw(st.integers(1, 2))
    A = None
    if draw(st.integers(0, 2)) > 0:
        for _ in range(10):
            M = [[draw(st.integers(-6, 6)) / 4.0 for _ in range(dim)] for _ in range(dim)]
            Mn = np.array(M)
            if np.linalg.det(Mn) > 0.3 and np.linalg.cond(Mn) < 8:
                A = M
                break
    warp = draw(st.integers(0, 4)) / 50.0 if warp_ok else 0.0  # amplitude of the smooth warp
    wseed = draw(st.integers(0, 99)) if warp > 0 else 0
    return dict(elemType=et, cells=cells, layers=layers, A=A, warp=warp, wseed=wseed)


def build_mesh(r: dict):
    """Mesh of the recipe: X' = A (X + warp * q(X)), q a fixed-seed quadratic map (smooth, so the
    higher-order elements become genuinely curved and the Jacobian is not constant)."""
    base = _base(r["elemType"], int(r["cells"]), int(r["layers"]))
    dim = gm.dim_of(r["elemType"])
    X = np.array(base.coord, float)
    if r.get("warp"):
        rng = np.random.default_rng(int(r["wseed"]))
        Q = rng.uniform(-1, 1, (dim, dim, dim))
        Xd = X[:, :dim]
        X = X.copy()
        X[:, :dim] = Xd + float(r["warp"]) * np.einsum("kij,ni,nj->nk", Q, Xd, Xd)
    if r.get("A") is not None:
        A3 = np.eye(3)
        A3[:dim, :dim] = np.array(r["A"], float)
        X = X @ A3.T
    if not r.get("warp") and r.get("A") is None:
        return base.copy()
    return gm.rebuild(base, X)


# ------------------------------------------------------------------------------------------
# kinematics from the definitions


def rot_from_quat(q) -> np.ndarray:
    q = np.asarray(q, float)
    n = np.linalg.norm(q)
    if n == 0:
        return np.eye(3)
    w, x, y, z = q / n
    return np.array([
        [1 - 2 * (y * y + z * z), 2 * (x * y - z * w), 2 * (x * z + y * w)],
        [2 * (x * y + z * w), 1 - 2 * (x * x + z * z), 2 * (y * z - x * w)],
        [2 * (x * z - y * w), 2 * (y * z + x * w), 1 - 2 * (x * x + y * y)],
    ])


def rot2(k: int) -> np.ndarray:
    """in-plane rotation by k*pi/12 as a 3x3 matrix"""
    a = k * np.pi / 12
    R = np.eye(3)
    R[:2, :2] = [[np.cos(a), -np.sin(a)], [np.sin(a), np.cos(a)]]
    return R


@st.composite
def rotations(draw, dim):
    """JSON-able rotation record"""
    if dim == 2:
        return dict(k=draw(st.integers(-11, 12)))
    return dict(q=[draw(st.integers(-4, 4)) for _ in range(4)])


def rotation(rec, dim=None) -> np.ndarray:
    return rot2(int(rec["k"])) if "k" in rec else rot_from_quat(rec["q"])


def frame_kind(p: dict, dim: int) -> str:
    """'tilted' when a 2D law carries a fibre frame with out-of-plane components"""
    if dim == 2 and "frame" in p and "q" in p["frame"]:
        R = rotation(p["frame"])
        if abs(R[2, 0]) > 1e-9 or abs(R[2, 1]) > 1e-9:
            return "tilted"
    return "inplane" if dim == 2 else "3d"


@st.composite
def stretches(draw, dim):
    """U = Q diag(lam) Q^T, lam in [0.6, 1.6] on a 0.1 grid"""
    lam = [0.6 + draw(st.integers(0, 10)) / 10.0 for _ in range(dim)]
    return dict(lam=lam, Q=draw(rotations(dim)))


def stretch_tensor(rec, dim) -> np.ndarray:
    Q = rotation(rec["Q"], dim)
    lam = np.ones(3)
    lam[:dim] = rec["lam"]
    return Q @ np.diag(lam) @ Q.T


def random_dF(seed: int, dim: int) -> np.ndarray:
    rng = np.random.default_rng(int(seed))
    d = np.zeros((3, 3))
    d[:dim, :dim] = rng.normal(size=(dim, dim))
    return d / np.linalg.norm(d)


def kelvin(M: np.ndarray, dim: int) -> np.ndarray:
    """symmetric (..,3,3) -> Kelvin-Mandel vector (..,3|6)"""
    if dim == 2:
        return np.stack([M[..., 0, 0], M[..., 1, 1], SQ2 * M[..., 0, 1]], -1)
    return np.stack([M[..., 0, 0], M[..., 1, 1], M[..., 2, 2],
                     SQ2 * M[..., 1, 2], SQ2 * M[..., 0, 2], SQ2 * M[..., 0, 1]], -1)


def homogeneous_u(mesh, F: np.ndarray, dim: int) -> np.ndarray:
    """nodal displacement of x = F X in (x1,y1,..) layout"""
    X = np.asarray(mesh.coord, float)
    return np.ascontiguousarray((X @ (F - np.eye(3)).T)[:, :dim]).ravel()


def smooth_u(mesh, dim: int, seed: int, amp: float, noise: float = 0.01) -> np.ndarray:
    """smooth non-homogeneous field: amp*(G X + quadratic) + small nodal noise"""
    rng = np.random.default_rng(int(seed))
    X = np.asarray(mesh.coord, float)[:, :dim]
    c = X.mean(axis=0)
    L = max(np.ptp(X, axis=0).max(), 1e-12)
    Y = (X - c) / L
    G = rng.normal(size=(dim, dim))
    Q = rng.normal(size=(dim, dim, dim))
    u = amp * L * (Y @ G.T + 0.5 * np.einsum("kij,ni,nj->nk", Q, Y, Y))
    u = u + noise * L * amp * rng.normal(size=u.shape)
    return np.ascontiguousarray(u).ravel()


# ------------------------------------------------------------------------------------------
# laws


def _g(draw, lo, hi, q=4):
    return draw(st.integers(int(lo * q), int(hi * q))) / float(q)


@st.composite
def law_records(draw, dim, names=None, fields_ok=True, tilted_ok=False):
    name = draw(st.sampled_from(names or LAWS))
    p = dict(name=name)
    if name == "NeoHookean":
        p.update(K=_g(draw, 0.25, 3))
    elif name in ("MooneyRivlin", "CiarletGeymonat"):
        p.update(K1=_g(draw, 0.25, 2), K2=_g(draw, 0, 2), K=_g(draw, 0, 4))
    elif name == "SaintVenantKirchhoff":
        p.update(lmbda=_g(draw, 0, 3), mu=_g(draw, 0.25, 2), K=_g(draw, 0, 2))
    elif name == "HolzapfelOgden":
        for k in ("C0", "C2", "C4", "C6"):
            p[k] = _g(draw, 0, 2)
        for k in ("C1", "C3", "C5", "C7"):
            p[k] = _g(draw, 0.25, 1)
        p.update(K=_g(draw, 0.25, 4), Mu1=_g(draw, 0, 2), Mu2=_g(draw, 0, 2),
                 ks=draw(st.sampled_from([1.0, 10.0, 100.0])))
        # orthonormal fibre frame; in 2D mostly in-plane, sometimes a general 3D frame ("tilted":
        # fibres with an out-of-plane component under plane strain)
        tilted = tilted_ok and dim == 2 and draw(st.integers(0, 3)) == 0
        p["frame"] = draw(rotations(3 if tilted else dim))
        p["field"] = draw(st.integers(0, 9)) if fields_ok and draw(st.booleans()) else None
    elif name == "yeoh":
        p.update(c1=_g(draw, 0.25, 2), c2=_g(draw, 0, 1), c3=_g(draw, 0, 1), K=_g(draw, 0.25, 3))
    elif name == "fung":
        p.update(c=_g(draw, 0.25, 2), b1=_g(draw, 0.25, 1), b2=_g(draw, 0, 1))
    elif name == "fibre":
        p.update(mu=_g(draw, 0.25, 2), k1=_g(draw, 0, 2), k2=_g(draw, 0.25, 1))
        p["frame"] = draw(rotations(dim))
    else:
        raise KeyError(name)
    return p


def law_record_rng(name: str, dim: int, rng) -> dict:
    """same parameter grids as `law_records`, drawn from a numpy Generator (enumerated grids)"""
    def g(lo, hi, q=4):
        return int(rng.integers(int(lo * q), int(hi * q) + 1)) / float(q)

    def rot(d):
        return dict(k=int(rng.integers(-11, 13))) if d == 2 else dict(q=[int(x) for x in rng.integers(-4, 5, 4)])

    p = dict(name=name)
    if name == "NeoHookean":
        p.update(K=g(0.25, 3))
    elif name in ("MooneyRivlin", "CiarletGeymonat"):
        p.update(K1=g(0.25, 2), K2=g(0, 2), K=g(0, 4))
    elif name == "SaintVenantKirchhoff":
        p.update(lmbda=g(0, 3), mu=g(0.25, 2), K=g(0, 2))
    elif name == "HolzapfelOgden":
        for k in ("C0", "C2", "C4", "C6"):
            p[k] = g(0.25, 2)
        for k in ("C1", "C3", "C5", "C7"):
            p[k] = g(0.25, 1)
        p.update(K=g(0.25, 4), Mu1=g(0, 2), Mu2=g(0, 2), ks=[1.0, 10.0, 100.0][int(rng.integers(0, 3))])
        p["frame"] = rot(dim)
        p["field"] = int(rng.integers(0, 10)) if rng.integers(0, 2) else None
    elif name == "yeoh":
        p.update(c1=g(0.25, 2), c2=g(0, 1), c3=g(0, 1), K=g(0.25, 3))
    elif name == "fung":
        p.update(c=g(0.25, 2), b1=g(0.25, 1), b2=g(0, 1))
    elif name == "fibre":
        p.update(mu=g(0.25, 2), k1=g(0.25, 2), k2=g(0.25, 1))
        p["frame"] = rot(dim)
    else:
        raise KeyError(name)
    return p


def rot_record_rng(dim: int, rng) -> dict:
    return dict(k=int(rng.integers(-11, 13))) if dim == 2 else dict(q=[int(x) for x in rng.integers(-4, 5, 4)])


def mesh_recipe_rng(elemType: str, rng) -> dict:
    dim = gm.dim_of(elemType)
    A = None
    for _ in range(10):
        M = rng.integers(-6, 7, (dim, dim)) / 4.0
        if np.linalg.det(M) > 0.3 and np.linalg.cond(M) < 8:
            A = M.tolist()
            break
    return dict(elemType=elemType, cells=1, layers=1, A=A, warp=int(rng.integers(0, 5)) / 50.0,
                wseed=int(rng.integers(0, 100)))


def moduli(p: dict) -> float:
    """natural magnitude of the material constants (scale of energies and stresses)"""
    keys = dict(NeoHookean=["K"], MooneyRivlin=["K1", "K2", "K"], CiarletGeymonat=["K1", "K2", "K"],
                SaintVenantKirchhoff=["lmbda", "mu", "K"],
                HolzapfelOgden=["C0", "C2", "C4", "C6", "K", "Mu1", "Mu2"],
                yeoh=["c1", "c2", "c3", "K"], fung=["c"], fibre=["mu", "k1"])[p["name"]]
    return float(sum(abs(p[k]) for k in keys)) + 1e-300


def fibre_frame(p: dict, dim: int, Ne: int = 0, nPg: int = 0):
    """(T1, T2): orthonormal pair, constant (3,) or per-(element, Gauss point) FeArray field
    obtained by an extra rotation about the third frame axis that varies with (e, p)."""
    R = rotation(p["frame"], dim)
    T1, T2, T3 = R[:, 0], R[:, 1], R[:, 2]
    if p.get("field") is None or Ne == 0:
        return T1.copy(), T2.copy()
    rng = np.random.default_rng(int(p["field"]))
    ang = rng.uniform(-1.0, 1.0, (Ne, nPg))
    c, s = np.cos(ang)[..., None], np.sin(ang)[..., None]
    F1 = c * T1 + s * T2
    F2 = -s * T1 + c * T2
    return FeArray.asfearray(F1), FeArray.asfearray(F2)


HO_KEYS = ["C0", "C1", "C2", "C3", "C4", "C5", "C6", "C7", "K", "Mu1", "Mu2"]


def make_law(p: dict, dim: int, Ne: int = 0, nPg: int = 0, thickness: float = 1.0):
    """built-in law or AutoDiff user energy of the record"""
    n = p["name"]
    if n == "NeoHookean":
        return HE.NeoHookean(dim, K=p["K"], thickness=thickness)
    if n == "MooneyRivlin":
        return HE.MooneyRivlin(dim, K1=p["K1"], K2=p["K2"], K=p["K"], thickness=thickness)
    if n == "CiarletGeymonat":
        return HE.CiarletGeymonat(dim, K1=p["K1"], K2=p["K2"], K=p["K"], thickness=thickness)
    if n == "SaintVenantKirchhoff":
        return HE.SaintVenantKirchhoff(dim, lmbda=p["lmbda"], mu=p["mu"], K=p["K"], thickness=thickness)
    if n == "HolzapfelOgden":
        T1, T2 = fibre_frame(p, dim, Ne, nPg)
        return HE.HolzapfelOgden(dim, *[p[k] for k in HO_KEYS], T1=T1, T2=T2, ks=p["ks"],
                                 thickness=thickness)
    if n in USER:
        return autodiff_law(p, dim, Ne, nPg)
    raise KeyError(n)


# ------------------------------------------------------------------------------------------
# jax restatements (one point, C is the 3x3 right Cauchy-Green tensor; the parameters arrive as
# one vector `prm` shared by all points).  The AutoDiff objects are cached per (energy, dim) and
# the parameter vector they hold is overwritten in place before each use, so jax compiles once
# per energy and array shape instead of once per case.

_JAX = {}


def _jax():
    if not _JAX:
        from EasyFEA.Models import _autodiff

        import jax
        import jax.numpy as jnp

        _autodiff.Enable_x64()
        _JAX.update(jax=jax, jnp=jnp)
    return _JAX["jnp"]


def _inv(C):
    jnp = _jax()
    I1 = jnp.trace(C)
    return I1, (I1 ** 2 - jnp.trace(C @ C)) / 2, jnp.linalg.det(C)


def _red(C):
    jnp = _jax()
    I1, I2, I3 = _inv(C)
    return I1 * I3 ** (-1 / 3), I2 * I3 ** (-2 / 3), jnp.sqrt(I3)


def W_NeoHookean(C, prm):
    J1, _, _ = _red(C)
    return prm[0] * (J1 - 3)


def W_MooneyRivlin(C, prm):
    J1, J2, J = _red(C)
    return prm[0] * (J1 - 3) + prm[1] * (J2 - 3) + prm[2] * (J - 1) ** 2


def W_CiarletGeymonat(C, prm):
    jnp = _jax()
    J1, J2, J = _red(C)
    return prm[0] * (J1 - 3) + prm[1] * (J2 - 3) + prm[2] * (J - 1 - jnp.log(J))


def W_SaintVenantKirchhoff(C, prm):
    jnp = _jax()
    lm, mu, K = prm[0], prm[1], prm[2]
    E = (C - jnp.eye(3)) / 2
    _, _, I3 = _inv(C)
    return lm / 2 * jnp.trace(E) ** 2 + mu * jnp.trace(E @ E) + 0.5 * K * (I3 - 1) ** 2


def W_HolzapfelOgden(C, prm, T1, T2):
    jnp = _jax()
    C0, C1, C2, C3, C4, C5, C6, C7, K, Mu1, Mu2, ks = [prm[i] for i in range(12)]
    J1, J2, J = _red(C)
    I4 = T1 @ C @ T1
    I6 = T2 @ C @ T2
    I8 = T1 @ C @ T2

    def chi(I):
        return 1 / (1 + jnp.exp(-ks * (I - 1)))

    return (C0 * (jnp.exp(C1 * (J1 - 3)) - 1)
            + C2 * chi(I4) * (jnp.exp(C3 * (I4 - 1) ** 2) - 1)
            + C4 * chi(I6) * (jnp.exp(C5 * (I6 - 1) ** 2) - 1)
            + C6 * (jnp.exp(C7 * I8 ** 2) - 1)
            + K / 4 * (J ** 2 - 1 - 2 * jnp.log(J)) + Mu1 * (J1 - 3) + Mu2 * (J2 - 3))


def W_yeoh(C, prm):
    J1, _, J = _red(C)
    x = J1 - 3
    return prm[0] * x + prm[1] * x ** 2 + prm[2] * x ** 3 + 0.5 * prm[3] * (J - 1) ** 2


def W_fung(C, prm):
    jnp = _jax()
    E = (C - jnp.eye(3)) / 2
    Q = prm[1] * jnp.trace(E @ E) + prm[2] * jnp.trace(E) ** 2
    return 0.5 * prm[0] * (jnp.exp(Q) - 1)


def W_fibre(C, prm, a):
    jnp = _jax()
    I1, _, I3 = _inv(C)
    I4 = a @ C @ a
    return 0.5 * prm[0] * (I1 - 3 - jnp.log(I3)) + prm[1] / (2 * prm[2]) * (jnp.exp(prm[2] * (I4 - 1) ** 2) - 1)


_W = dict(NeoHookean=W_NeoHookean, MooneyRivlin=W_MooneyRivlin, CiarletGeymonat=W_CiarletGeymonat,
          SaintVenantKirchhoff=W_SaintVenantKirchhoff, HolzapfelOgden=W_HolzapfelOgden,
          yeoh=W_yeoh, fung=W_fung, fibre=W_fibre)
_PRM = dict(NeoHookean=["K"], MooneyRivlin=["K1", "K2", "K"], CiarletGeymonat=["K1", "K2", "K"],
            SaintVenantKirchhoff=["lmbda", "mu", "K"], HolzapfelOgden=HO_KEYS + ["ks"],
            yeoh=["c1", "c2", "c3", "K"], fung=["c", "b1", "b2"], fibre=["mu", "k1", "k2"])
_AD_CACHE = {}


def autodiff_law(p: dict, dim: int, Ne: int = 0, nPg: int = 0):
    """`Models.HyperElastic.AutoDiff` for the energy of the record (same energy as the shipped law
    of that name when it is one of LAWS)."""
    _jax()
    n = p["name"]
    nfib = 2 if n == "HolzapfelOgden" else 1 if n == "fibre" else 0
    isfield = nfib > 0 and p.get("field") is not None and Ne > 0
    key = (n, dim, isfield, Ne if isfield else 0, nPg if isfield else 0)
    if key not in _AD_CACHE:
        prm = np.zeros(len(_PRM[n]))
        fibs = [np.zeros((Ne, nPg, 3)) if isfield else np.zeros(3) for _ in range(nfib)]
        in_axes = (0, None) + tuple(0 if isfield else None for _ in range(nfib))
        mat = HE.AutoDiff(dim, _W[n], aux=(prm, *fibs), in_axes=in_axes)
        _AD_CACHE[key] = (mat, prm, fibs)
    mat, prm, fibs = _AD_CACHE[key]
    prm[:] = [p[k] for k in _PRM[n]]
    if nfib:
        T = fibre_frame(p, dim, Ne, nPg)
        for i in range(nfib):
            fibs[i][...] = np.asarray(T[i])
    return mat
