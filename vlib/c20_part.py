"""C20 helpers: partitions of a gmsh model built in one process, set algebra on global
connectivities, sub-mesh extraction with own numbering (for Mesh.Merge).

A *recipe* is the gen_mesh recipe restricted to the gmsh part
    {verts, h, elemType, organised, extrude, layers}
The gmsh model is built exactly as Mesher.Mesh_2D / Mesh_Extrude build it (same staged calls as
/repo/tests/FEM/partition_test.py), then `_Mesh_Get_Meshes(Nproc)` returns every part.  The global
mesh of the same model is the single item returned for Nproc = 1.
"""

from __future__ import annotations

import numpy as np

from EasyFEA import ElemType, Mesh, Mesher
from EasyFEA.FEM._group_elem import GroupElemFactory
from EasyFEA.Geoms import Point, Points

from .runner import Inconclusive

KEYS = ("verts", "h", "elemType", "organised", "extrude", "layers")


def base_recipe(r: dict) -> dict:
    return {k: r.get(k) for k in KEYS}


def _finalize_gmsh():
    import gmsh

    if gmsh.isInitialized():
        gmsh.finalize()


def build(recipe: dict, Nproc, coef: float = 1.0):
    """(global mesh, [part meshes], Nproc) of ONE generated gmsh mesh (Nproc: int, None = no partition, or a
    function of the number of main-dimension elements).

    The model is built with the staged calls Mesher.Mesh_2D / Mesh_Extrude use (as in
    /repo/tests/FEM/partition_test.py).  The global mesh is read from the generated model with the same
    routine `_Mesh_Get_Mesh` uses in serial (`__Get_dict_groupElems(1, coef)`, which only reads the
    model), then `_Mesh_Get_Meshes(Nproc, coef)` partitions that very mesh.  Reading both from one
    generation matters: gmsh's recombination is not reproducible on a few tiny unstructured QUAD/HEXA
    recipes, so a re-generated mesh is not a valid reference.
    gmsh refusing the geometry is Inconclusive; whatever happens while reading/partitioning (the code
    under test) propagates."""
    r = base_recipe(recipe)
    et = ElemType(r["elemType"])
    mesher = Mesher()
    try:
        try:
            mesher._Init_gmsh("occ")
            contour = Points([Point(x, y) for x, y in r["verts"]], r["h"])
            mesher._Surfaces(contour, [])
            mesher._Organise_Surfaces(et, bool(r["organised"]), contour.meshSize)
            dim = 2
            if r.get("extrude"):
                surfaces = [e[1] for e in mesher._factory.getEntities(2)]
                layers = [int(r["layers"])] if r.get("layers") else []
                mesher._Extrude(surfaces=surfaces, extrude=r["extrude"], elemType=et, layers=layers)
                dim = 3
            mesher._Set_PhysicalGroups()
            mesher._Mesh_Generate(dim, et)
        except Exception as e:  # gmsh refused the recipe (geometry / meshing stage)
            raise Inconclusive(f"gmsh: {type(e).__name__}")
        gl = Mesh(mesher._Mesher__Get_dict_groupElems(1, coef)[0])
        if Nproc is None:
            return gl, None, None
        if callable(Nproc):  # part count as a function of the number of main-dimension elements
            Nproc = Nproc(gl.Ne)
        parts = mesher._Mesh_Get_Meshes(int(Nproc), coef)
        return gl, parts, int(Nproc)
    finally:
        _finalize_gmsh()


def same_mesh(a: Mesh, b: Mesh) -> bool:
    ga, gb = groups(a), groups(b)
    if sorted(ga) != sorted(gb) or a.Nn != b.Nn:
        return False
    if not np.array_equal(np.asarray(a.coord), np.asarray(b.coord)):
        return False
    return all(np.array_equal(np.asarray(ga[t].connect), np.asarray(gb[t].connect)) for t in ga)


# ------------------------------------------------------------------------------------------
# views


def groups(mesh: Mesh) -> dict:
    """{elemType name: groupElem} for every group of the mesh (all dimensions)"""
    return {str(et): g for et, g in mesh.dict_groupElem.items()}


def main_types(mesh: Mesh) -> list:
    return [str(g.elemType) for g in mesh.Get_list_groupElem(mesh.dim)]


def used_nodes_main(mesh: Mesh) -> np.ndarray:
    out = [np.asarray(g.connect, int).ravel() for g in mesh.Get_list_groupElem(mesh.dim)]
    return np.unique(np.concatenate(out)) if out else np.zeros(0, int)


def touching(connect: np.ndarray, nodes: np.ndarray, Nn: int) -> np.ndarray:
    """rows of `connect` that use at least one of `nodes` (harness set algebra)"""
    mask = np.zeros(Nn, bool)
    mask[np.asarray(nodes, int)] = True
    if connect.size == 0:
        return np.zeros(0, int)
    return np.nonzero(mask[connect].any(axis=1))[0]


def is_strictly_sorted(a: np.ndarray) -> bool:
    a = np.asarray(a)
    return bool(a.size < 2 or np.all(a[1:] > a[:-1]))


# ------------------------------------------------------------------------------------------
# sub-meshes with their own numbering (inputs of Mesh.Merge)


def submesh(mesh: Mesh, elems: dict, perm_seed=None, shift=(0.0, 0.0, 0.0), split_node=None):
    """Mesh made of the rows `elems[type]` of each group of `mesh`, with a compact own node numbering
    (optionally permuted) and coordinates translated by `shift`.
    Returns (sub, loc2glob) where loc2glob[j] = node of `mesh` that is node j of `sub`."""
    gs = groups(mesh)
    conns = {}
    used = []
    for t, rows in elems.items():
        rows = np.asarray(rows, int)
        if rows.size == 0:
            continue
        c = np.asarray(gs[t].connect, int)[rows]
        conns[t] = c
        used.append(c.ravel())
    if not conns:
        return None, None
    used = np.unique(np.concatenate(used))
    n = used.size
    order = np.arange(n)
    if perm_seed is not None:
        order = np.random.default_rng(int(perm_seed)).permutation(n)
    loc2glob = used[order]
    glob2loc = np.full(mesh.Nn, -1, int)
    glob2loc[loc2glob] = np.arange(n)
    coord = np.asarray(mesh.coord, float)[loc2glob] + np.asarray(shift, float)[None, :]
    lconns = {t: glob2loc[c] for t, c in conns.items()}
    if split_node:
        # one element of the highest-dimension group gets a node of its own at the place of its first node (two nodes of
        # the SAME mesh at the same place, as on the lips of a crack): a new node, with an identity of its own
        tmain = max(lconns, key=lambda t: (groups(mesh)[t].dim, lconns[t].shape[0]))
        if lconns[tmain].shape[0] >= 2:
            lc = lconns[tmain].copy()
            old = int(lc[0, 0])
            lc[0, 0] = n
            lconns[tmain] = lc
            coord = np.vstack([coord, coord[old]])
            loc2glob = np.concatenate([loc2glob, [int(split_node)]])
    d = {}
    for t, c in lconns.items():
        d[ElemType(t)] = GroupElemFactory.Create(ElemType(t), c, coord)
    return Mesh(d), loc2glob


def group_measures(g) -> np.ndarray:
    """measure of every element of a group (length / area / volume); 1 for points"""
    if g.dim == 0:
        return np.ones(g.Ne)
    return np.asarray(g.Integrate_e(lambda x, y, z: 1.0 + 0 * x), float).reshape(-1)
