"""C16 helpers: every simulation type built from a JSON-able case, with an arbitrary state injected
through `_Set_solutions` (and the private history of InElastic), plus harness-side tensor helpers.

A case is
  {"sim": "elastic"|"thermal"|"beam"|"weakforms"|"hyperelastic"|"inelastic"|"phasefield",
   "recipe": mesh recipe (gen_mesh)  |  "member": beam member spec (gen_beam),
   "model": {...}, "algo": "elliptic"|"parabolic"|"newmark"|"midpoint"|"hht",
   "seed": int (state), "only": None | [result names]}
"""

from __future__ import annotations

import numpy as np
from hypothesis import strategies as st

from EasyFEA import AlgoType, Models, Simulations
from EasyFEA.FEM import BiLinearForm, FeArray, Field, MatrixType
from EasyFEA.Models import InElastic as IE

from . import gen_beam as gb
from . import gen_mesh as gm
from . import gen_model as gmod
from .runner import Inconclusive

SIMS = ["elastic", "thermal", "beam", "weakforms", "hyperelastic", "inelastic", "phasefield"]
T3D_CHEAP = ["TETRA4", "TETRA4", "TETRA10", "HEXA8", "HEXA8", "PRISM6", "PRISM6", "PRISM15", "HEXA20", "PRISM18"]
SPLITS2D = ["Bourdin", "Amor", "Miehe", "Stress", "He", "Zhang", "AnisotStrain", "AnisotStress"]
SPLITS3D = ["Bourdin", "Amor", "Miehe", "Stress"]
HYPER = ["NeoHookean", "MooneyRivlin", "SaintVenantKirchhoff", "CiarletGeymonat"]
XYZ = ["x", "y", "z"]


# ------------------------------------------------------------------------------------------
# strategies


def _single_group(draw, r):
    """WeakForms / beams handle a single main group: make QUAD / HEXA recipes structured"""
    if r["elemType"].startswith(("QUAD", "HEXA")):
        r = dict(r)
        r["verts"] = draw(gm.polygons(4, 4))
        r["organised"] = True
    return r


@st.composite
def recipes(draw, dims=(2, 3), single_group=False, coarse=False):
    dim = draw(st.sampled_from(list(dims)))
    if dim == 1:
        return draw(gm.recipes1d())
    if dim == 2:
        r = draw(gm.recipes2d(affine_ok=False, hmin=6 if coarse else 4, hmax=12 if coarse else 9, bend_ok=True))
    else:
        r = draw(gm.recipes3d(types=T3D_CHEAP, affine_ok=False, bend_ok=True))
    return _single_group(draw, r) if single_group else r


@st.composite
def sim_cases(draw, sims=SIMS, coarse=False):
    sim = draw(st.sampled_from(list(sims)))
    case = dict(sim=sim, seed=draw(st.integers(0, 9999)), only=None, algo="elliptic", model={},
                umag=draw(st.sampled_from([1.0, 1.0, 1.0, 1e-9, 1e6])))
    g = lambda lo, hi, den: draw(st.integers(lo, hi)) / float(den)  # noqa: E731
    if sim == "beam":
        case["member"] = draw(gb.member_specs())
        return case
    if sim == "thermal":
        case["recipe"] = draw(recipes((1, 2, 2, 3), coarse=coarse))
        case["model"] = dict(k=g(1, 20, 4), c=g(1, 12, 4), thickness=draw(st.sampled_from([1.0, 0.5, 2.5])))
        case["algo"] = draw(st.sampled_from(["elliptic", "parabolic"]))
        return case
    if sim == "weakforms":
        case["recipe"] = draw(recipes((1, 2, 2, 3), single_group=True, coarse=coarse))
        case["model"] = dict(dof_n=draw(st.sampled_from([1, 2, 3, 3])), thickness=draw(st.sampled_from([1.0, 0.5])))
        case["algo"] = draw(st.sampled_from(["elliptic", "parabolic", "newmark", "midpoint"]))
        return case
    r = draw(recipes((2, 2, 3), coarse=coarse))
    case["recipe"] = r
    dim = gm.dim_of(r["elemType"])
    if sim == "elastic":
        case["model"] = draw(gmod.elastic_specs(dim))
        case["algo"] = draw(st.sampled_from(["elliptic", "newmark", "midpoint", "hht"]))
    elif sim == "hyperelastic":
        case["model"] = dict(law=draw(st.sampled_from(HYPER)), K=g(1, 12, 4), K1=g(1, 8, 4), K2=g(0, 8, 4),
                             lmbda=g(0, 12, 4), mu=g(1, 8, 4), thickness=draw(st.sampled_from([1.0, 0.5])),
                             # active fibre stress tau t (x) t: none, one value, or a field with passive (tau = 0) elements
                             active=draw(st.sampled_from([None, None, "scalar", "field", "field"])), tau=g(-4, 4, 8), fibre=draw(st.integers(0, 11)))
        case["algo"] = draw(st.sampled_from(["elliptic", "newmark", "midpoint"]))
    elif sim == "inelastic":
        case["model"] = dict(E=draw(st.sampled_from([210.0, 7.0e4])), v=g(0, 9, 20), ey=draw(st.sampled_from([1e-3, 5e-3])),
                             H=draw(st.sampled_from([None, 0.0, 0.1])), nkin=draw(st.integers(0, 2)),
                             nbranch=draw(st.integers(0, 1)), planeStress=(dim == 2 and draw(st.integers(0, 3)) == 0),
                             thickness=draw(st.sampled_from([1.0, 0.5])))
    elif sim == "phasefield":
        case["model"] = dict(E=g(4, 40, 4), v=g(0, 8, 20), planeStress=(dim == 2 and draw(st.booleans())),
                             thickness=draw(st.sampled_from([1.0, 0.5])),
                             split=draw(st.sampled_from(SPLITS2D if dim == 2 else SPLITS3D)),
                             regu=draw(st.sampled_from(["AT1", "AT2"])), Gc=g(1, 8, 4), l0=g(1, 6, 10))
    return case


# ------------------------------------------------------------------------------------------
# states


def _field(rng, coord, ncomp, grad, offset, noise):
    """(Nn, ncomp) nodal field: affine part + per-node noise; every column has its own non-zero
    offset so that all components are distinct and non-zero"""
    X = coord - coord.mean(axis=0)
    G = rng.uniform(-grad, grad, (ncomp, 3))
    c = offset * (0.6 + 0.35 * np.arange(1, ncomp + 1)) * np.where(rng.uniform(size=ncomp) < 0.5, -1.0, 1.0)
    f = X @ G.T + c + noise * rng.uniform(-1, 1, (coord.shape[0], ncomp))
    return f


def arbitrary(rng, coord, ncomp, amp=1.0):
    """O(amp) nodal values, all components distinct and bounded away from zero"""
    f = rng.uniform(0.2, 1.0, (coord.shape[0], ncomp)) * np.where(rng.uniform(size=(coord.shape[0], ncomp)) < 0.5, -1, 1)
    f = f * (1.0 + 0.13 * np.arange(ncomp))
    return amp * f


def distinct_nonzero(*arrays) -> bool:
    """the non-triviality rule: every column of every state array is non-zero everywhere and no two
    columns (of u, v, a together) coincide"""
    cols = []
    for A in arrays:
        if A is None:
            continue
        A = np.asarray(A, float)
        A = A.reshape(A.shape[0], -1)
        if np.any(A == 0.0):
            return False
        cols += [A[:, i] for i in range(A.shape[1])]
    for i in range(len(cols)):
        for j in range(i + 1, len(cols)):
            if cols[i].shape == cols[j].shape and np.allclose(cols[i], cols[j], rtol=1e-6, atol=0):
                return False
    return True


# ------------------------------------------------------------------------------------------
# builders


class Ctx:
    """built simulation + what the harness injected"""

    def __init__(self, **kw):
        self.__dict__.update(kw)


def _set_algo(simu, algo, dt=0.1):
    if algo == "elliptic":
        return
    if algo == "parabolic":
        simu.Solver_Set_Parabolic_Algorithm(dt, alpha=0.5)
    else:
        simu.Solver_Set_Hyperbolic_Algorithm(dt, algo=AlgoType(algo), alpha=0.2 if algo in ("hht", "hht_newmark") else 0.5)


def hyper_law(m, dim):
    HE = Models.HyperElastic
    th = float(m["thickness"])
    if m["law"] == "NeoHookean":
        return HE.NeoHookean(dim, K=m["K"], thickness=th)
    if m["law"] == "MooneyRivlin":
        return HE.MooneyRivlin(dim, K1=m["K1"], K2=m["K2"], K=m["K"], thickness=th)
    if m["law"] == "CiarletGeymonat":
        return HE.CiarletGeymonat(dim, K1=m["K1"], K2=m["K2"], K=m["K"], thickness=th)
    return HE.SaintVenantKirchhoff(dim, lmbda=m["lmbda"], mu=m["mu"], K=m["K"], thickness=th)


def inelastic_law(m, dim):
    E = float(m["E"])
    sy = E * float(m["ey"])
    el = Models.Elastic.Isotropic(3, E=E, v=float(m["v"]))
    hard = None if m["H"] is None else IE.IsotropicHardening.Linear(float(m["H"]) * E)
    kin = [IE.KinematicHardening.ArmstrongFrederick(0.05 * E * (i + 1), 50.0 * i) for i in range(int(m["nkin"]))] or None
    br = [IE.ViscoElastic.Maxwell(0.2, 1.0) for _ in range(int(m["nbranch"]))]
    return IE.Behavior(dim, el, yieldSurface=IE.Yield.VonMises(sy), hardening=hard, kinematic=kin, branches=br,
                       thickness=float(m["thickness"]), planeStress=bool(m["planeStress"]))


def phasefield_law(m, dim):
    el = Models.Elastic.Isotropic(dim, E=float(m["E"]), v=float(m["v"]), planeStress=bool(m["planeStress"]),
                                  thickness=float(m["thickness"]))
    return Models.PhaseField(el, m["split"], m["regu"], float(m["Gc"]), float(m["l0"]), "History")


def build(case, inject=True, max_nodes=450) -> Ctx:
    """simulation of the case with the arbitrary state of `seed` injected (inject=False: virgin)"""
    sim = case["sim"]
    rng = np.random.default_rng(int(case["seed"]))
    algo = case.get("algo", "elliptic")
    m = case.get("model", {})
    z_inj = None
    d_inj = None
    if sim == "beam":
        spec = case["member"]
        simu, mesh, beam, frame = gb.build_member(spec)
        dim = spec["dim"]
        types = spec["elemType"]
        kind = "timo" if spec["timoshenko"] else "eb"
        ncomp = simu.Get_dof_n()
        unknowns = list(simu.Get_unknowns())
        pt = simu.problemType
    else:
        mesh = gm.build(case["recipe"])
        if mesh.Nn > max_nodes:
            raise Inconclusive("mesh too large for the quick budget")
        dim = mesh.dim
        types = gm.mesh_types(mesh)
        kind = sim
        if sim == "elastic":
            simu = Simulations.Elastic(mesh, gmod.make_elastic(m))
            simu.rho = 1.5
        elif sim == "thermal":
            simu = Simulations.Thermal(mesh, Models.Thermal(k=m["k"], c=m["c"], thickness=m["thickness"]))
            simu.rho = 1.5
        elif sim == "weakforms":
            groups = gm.main_groups(mesh)
            if len(groups) != 1:
                raise Inconclusive("mixed mesh: Simulations.WeakForms handles a single main group")
            n = min(int(m["dof_n"]), int(groups[0].inDim))  # documented contract of Field: 1 <= dof_n <= inDim
            field = Field(groups[0], n)
            if n == 1:
                fK = BiLinearForm(lambda u, v: u.grad.dot(v.grad))
                fM = BiLinearForm(lambda u, v: 2.0 * u.dot(v))
            else:
                fK = BiLinearForm(lambda u, v: u.grad.ddot(v.grad))
                fM = BiLinearForm(lambda u, v: 2.0 * u.dot(v))
            simu = Simulations.WeakForms(mesh, Models.WeakForms(field, fK, computeC=fM, computeM=fM,
                                                                thickness=float(m["thickness"])))
            kind = f"weakforms{n}"
        elif sim == "hyperelastic":
            mat_h = hyper_law(m, dim)
            groups_h = mesh.Get_list_groupElem(mesh.dim)
            if m.get("active") and len(groups_h) == 1 and float(m.get("tau", 0.0)) != 0.0:
                from EasyFEA import MatrixType as _MT
                from EasyFEA.FEM import FeArray as _Fe

                g_h = groups_h[0]
                nPg_h = g_h.Get_gauss(_MT.rigi).nPg
                ang = float(m.get("fibre", 0)) * np.pi / 6.0
                t_h = np.array([np.cos(ang), np.sin(ang), 0.4 if dim == 3 else 0.0])
                mat_h.Set_active_stress_vec(_Fe.asfearray(np.tile(t_h, (g_h.Ne, nPg_h, 1))))
                tau = float(m["tau"])
                # a field: every other element is passive (tau = 0 there)
                mat_h.active_stress = tau if m["active"] == "scalar" else tau * (np.arange(g_h.Ne) % 2).astype(float)
            simu = Simulations.HyperElastic(mesh, mat_h)
            simu.rho = 1.5
        elif sim == "inelastic":
            simu = Simulations.InElastic(mesh, inelastic_law(m, dim))
        elif sim == "phasefield":
            simu = Simulations.PhaseField(mesh, phasefield_law(m, dim))
        else:
            raise KeyError(sim)
        pt = simu.ProblemTypes.elastic if sim == "phasefield" else simu.problemType
        ncomp = simu.Get_dof_n(pt)
        unknowns = list(simu.Get_unknowns(pt))
    _set_algo(simu, algo)
    coord = np.asarray(mesh.coord, float)
    Nn = mesh.Nn
    u = v = a = None
    if inject:
        if sim == "hyperelastic":
            u = _field(rng, coord, ncomp, 0.08, 0.2, 0.003)
        elif sim == "inelastic":
            u = _field(rng, coord, ncomp, 2.0 * float(m["ey"]), 0.2 * float(m["ey"]), 0.05 * float(m["ey"]))
        elif sim == "phasefield":
            u = _field(rng, coord, ncomp, 0.05, 0.1, 0.005)
        else:
            u = arbitrary(rng, coord, ncomp)
        v = arbitrary(rng, coord, ncomp, 2.0)
        a = arbitrary(rng, coord, ncomp, 3.0)
        umag = float(case.get("umag", 1.0))  # magnitude of the state (length unit of the displacements); linear simulations only
        if umag != 1.0 and sim not in ("hyperelastic", "inelastic"):
            u, v, a = umag * u, umag * v, umag * a
        simu._Set_solutions(pt, u.ravel().copy(), v.ravel().copy(), a.ravel().copy())
        if sim == "phasefield":
            d_inj = rng.uniform(0.05, 0.9, Nn)
            simu._Set_solutions(simu.ProblemTypes.damage, d_inj.copy())
            simu.Need_Update()
        if sim == "inelastic":
            z_inj = {}
            lay = simu.material.layout
            amp = 0.0 if m["planeStress"] else float(m["ey"])
            for g in gm.main_groups(mesh):
                nPg = g.Get_gauss(MatrixType.rigi).nPg
                z = np.asarray(simu.material.State_zeros(g.Ne, nPg), float).copy()
                z[...] = amp * rng.uniform(-0.5, 0.5, z.shape)
                for name, sl in lay.slots.items():
                    if sl.stop - sl.start == 1:  # scalar internal variables (cumulated plastic strain): positive
                        z[..., sl.start] = amp * rng.uniform(0.1, 1.0, z.shape[:2])
                z_inj[g.elemType] = FeArray.asfearray(z)
            # the committed history of the simulation (private; DESIGN 1.3 'Hooks')
            simu._InElastic__zOld = {et: zz.copy() for et, zz in z_inj.items()}
            simu._InElastic__z = {et: zz.copy() for et, zz in z_inj.items()}
    return Ctx(simu=simu, mesh=mesh, sim=sim, dim=dim, types=types, kind=kind, pt=pt, ncomp=ncomp, unknowns=unknowns,
               u=u, v=v, a=a, d=d_inj, z=z_inj, algo=algo, model=m, case=case)


# ------------------------------------------------------------------------------------------
# tensors (harness side)

R2 = np.sqrt(2.0)


def km_to_components(F, coef=R2):
    """(..., 3|6) Kelvin-Mandel vector -> tensor components [xx,yy,xy] | [xx,yy,zz,yz,xz,xy]"""
    F = np.array(np.asarray(F), float)
    n = 1 if F.shape[-1] == 3 else 3
    F[..., -n:] = F[..., -n:] / coef
    return F


def von_mises(T):
    """von Mises norm sqrt(3/2 dev:dev) of tensor components (..., 3|6) ([xx,yy,xy] = in-plane tensor,
    out-of-plane components zero), computed from the full 3x3 tensor (not the expanded formulas)"""
    T = np.asarray(T, float)
    S = np.zeros(T.shape[:-1] + (3, 3))
    if T.shape[-1] == 3:
        S[..., 0, 0], S[..., 1, 1] = T[..., 0], T[..., 1]
        S[..., 0, 1] = S[..., 1, 0] = T[..., 2]
    else:
        S[..., 0, 0], S[..., 1, 1], S[..., 2, 2] = T[..., 0], T[..., 1], T[..., 2]
        S[..., 1, 2] = S[..., 2, 1] = T[..., 3]
        S[..., 0, 2] = S[..., 2, 0] = T[..., 4]
        S[..., 0, 1] = S[..., 1, 0] = T[..., 5]
    tr = np.trace(S, axis1=-2, axis2=-1)
    dev = S - tr[..., None, None] / 3.0 * np.eye(3)
    return np.sqrt(1.5 * np.einsum("...ij,...ij->...", dev, dev))


def tensor_fields(ctx, which):
    """list over the main groups of the (Ne, nPg, 3|6) Kelvin-Mandel field the named results derive
    from, through the simulation's own field functions; which = 'strain' | 'stress'"""
    simu, sim = ctx.simu, ctx.sim
    out = []
    for g in gm.main_groups(ctx.mesh):
        if sim == "elastic":
            u = np.asarray(simu.displacement, float)
            eps = simu._Calc_Epsilon_e_pg(u, g)
            f = eps if which == "strain" else simu._Calc_Sigma_e_pg(eps, g)
        elif sim == "phasefield":
            u = np.asarray(simu.displacement, float)
            eps = simu._Calc_Epsilon_e_pg(u, g)
            if which == "strain":
                f = eps
            else:
                # the stress K_u is built from, assembled here from the model (split: C17) and the degradation function, not
                # through the simulation's own result function: sigma = g(d) sigma+ + sigma-
                from EasyFEA import MatrixType

                pfm = simu.phaseFieldModel
                sP, sM = pfm.Calc_Sigma_e_pg(eps)
                gd = np.asarray(pfm.Get_g_e_pg(np.asarray(simu.damage, float), g, MatrixType.rigi), float)
                f = gd[..., None] * np.asarray(sP, float) + np.asarray(sM, float)
        elif sim == "hyperelastic":
            if which == "strain":
                # E = 1/2 (F^T F - I) from the deformation gradient, in Kelvin-Mandel order [xx, yy, zz, yz, xz, xy] - not through the
                # simulation's own result function
                from EasyFEA import MatrixType
                from EasyFEA.Models.HyperElastic._state import HyperElasticState

                F = np.asarray(HyperElasticState(g, np.asarray(simu.displacement, float), MatrixType.rigi).Compute_F(), float)
                E = 0.5 * (np.einsum("epki,epkj->epij", F, F) - np.eye(3))
                r2 = np.sqrt(2.0)
                f = np.stack([E[..., 0, 0], E[..., 1, 1], E[..., 2, 2], r2 * E[..., 1, 2], r2 * E[..., 0, 2], r2 * E[..., 0, 1]], axis=-1)
            else:
                # S = dW/de of the law at the state (+ the active fibre stress the law was given), from the model's own functions -
                # not through the simulation's result function
                from EasyFEA import MatrixType
                from EasyFEA.Models.HyperElastic._state import HyperElasticState

                st_h = HyperElasticState(g, np.asarray(simu.displacement, float), MatrixType.rigi)
                f = np.asarray(simu.material.Compute_dWde(st_h), float)
                if np.any(np.asarray(simu.material.active_stress) != 0.0):
                    f = f + np.asarray(simu.material.Compute_active_stress(st_h), float)
        elif sim == "inelastic":
            eps = simu._Calc_Epsilon_e_pg(np.asarray(simu.displacement, float), g)
            f = eps if which == "strain" else simu.material.Compute_stress(eps, ctx.z[g.elemType].copy())
        else:
            raise KeyError(sim)
        out.append(np.array(np.asarray(f), float))
    return out


def coef_of(ctx):
    simu = ctx.simu
    if ctx.sim == "phasefield":
        return float(simu.phaseFieldModel.material.coef)
    return float(simu.material.coef)
