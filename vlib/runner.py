"""Runner: seeds, sharding, exit codes, VIOLATION / KNOWN-FINDING lines, evidence.

A property module (checks/cXX_*.py) exposes

    PROPERTY = "C07"
    RULE     = "how cases are generated / what makes one non-trivial"   (evidence.coverage.rule)
    ASSUMPTIONS = [...]
    SUBS     = [Sub(...), ...]

A Sub is either *generated* (``gen`` = Hypothesis strategy producing a JSON-able case) or
*enumerated* (``enum(tier)`` yields JSON-able cases; a finite domain enumerated completely).
``check(case, rec)`` runs the real code and the oracle on one case.  It reports through
``rec.require(cond, oracle, msg, **sig)`` (raises Violation unless the (sub, oracle, sig) class
is a listed known finding), and may raise Inconclusive.  A replay file is the JSON case; it is
re-run by calling ``check`` directly, without Hypothesis.
"""

from __future__ import annotations

import hashlib
import json
import os
import sys
import time
import traceback
import zlib
from dataclasses import dataclass, field
from typing import Any, Callable, Optional

VERIF = os.path.dirname(os.path.dirname(os.path.abspath(__file__)))
REPO = os.environ.get("VERIF_REPO", "/repo")


class Violation(Exception):
    def __init__(self, oracle: str, msg: str, sig: Optional[dict] = None):
        super().__init__(f"[{oracle}] {msg}")
        self.oracle = oracle
        self.msg = msg
        self.sig = sig or {}


class Inconclusive(Exception):
    """The case cannot decide the property (gmsh refused the recipe, Newton did not converge,
    rank gap not clear...).  Counted, never a violation."""


@dataclass
class Sub:
    name: str
    check: Callable[[Any, "Rec"], None]
    gen: Any = None  # hypothesis strategy (or a callable returning one)
    enum: Optional[Callable[[str], Any]] = None  # tier -> iterable of cases
    quick: int = 50  # generated examples in quick tier (per shard)
    thorough: int = 500  # generated examples per shard in thorough tier
    shards: int = 4  # shards in thorough tier
    doc: str = ""


class Rec:
    """Per-(sub, shard) recorder; merged by the parent."""

    def __init__(self, pid: str, sub: str, known: list):
        self.pid = pid
        self.sub = sub
        self.known = known  # list of known-finding entries for this property
        self.evaluations = 0
        self.nontrivial_keys: set = set()
        self.labels: dict = {}
        self.maxima: dict = {}
        self.samples: list = []
        self.inconclusive = 0
        self.inconclusive_why: dict = {}
        self.known_hits: dict = {}
        self._case_key = None
        self._case = None
        self._nt = False

    # -- case life cycle -------------------------------------------------------------------
    def begin(self, case):
        self.evaluations += 1
        self._case = case
        self._case_key = hashlib.sha1(
            json.dumps(case, sort_keys=True, default=str).encode()
        ).hexdigest()[:16]
        self._nt = False

    def end(self):
        if self._nt:
            self.nontrivial_keys.add(self.sub + ":" + self._case_key)
            if len(self.samples) < 3:
                self.samples.append({"sub": self.sub, "case": self._case})

    # -- reporting from checks -------------------------------------------------------------
    def nontrivial(self, flag: bool = True):
        if flag:
            self._nt = True

    def label(self, *names):
        for n in names:
            n = str(n)
            self.labels[n] = self.labels.get(n, 0) + 1

    def note_max(self, name: str, value: float):
        try:
            v = float(value)
        except Exception:
            return
        if v != v:  # nan
            return
        if v > self.maxima.get(name, -1.0):
            self.maxima[name] = v

    def is_known(self, oracle: str, sig: dict):
        for ent in self.known:
            if ent.get("status") != "known":
                continue
            if ent.get("sub") not in (None, self.sub):
                continue
            if ent.get("oracle") not in (None, oracle):
                continue
            m = ent.get("match", {})
            ok = True
            for k, v in m.items():
                sv = sig.get(k, None)
                if isinstance(v, list):
                    if sv not in v:
                        ok = False
                        break
                elif sv != v:
                    ok = False
                    break
            if ok:
                return ent
        return None

    def require(self, cond, oracle: str, msg: str = "", **sig) -> bool:
        """Assert an oracle.  Returns True when it held, False when it failed in a class that
        KNOWN_FINDINGS.json lists (counted; the search goes on), raises Violation otherwise."""
        if bool(cond):
            return True
        ent = self.is_known(oracle, sig)
        if ent is not None:
            self.known_hits[ent["id"]] = self.known_hits.get(ent["id"], 0) + 1
            return False
        if callable(msg):
            msg = msg()
        raise Violation(oracle, msg, sig)

    def close(self, err, scale, tol, oracle: str, msg: str = "", **sig) -> bool:
        """|err| <= tol*scale, recording the honest error ratio (err/scale) for calibration."""
        import numpy as np

        err = float(np.max(np.abs(err))) if np.size(err) else 0.0
        scale = float(scale)
        ok = np.isfinite(err) and err <= tol * scale
        if ok and scale > 0:
            self.note_max("honest_err:" + oracle, err / scale)
        return self.require(
            ok, oracle, f"{msg} err={err:.3e} scale={scale:.3e} tol={tol:.1e}", **sig
        )

    def export(self) -> dict:
        return dict(
            sub=self.sub,
            evaluations=self.evaluations,
            nontrivial_keys=sorted(self.nontrivial_keys),
            labels=self.labels,
            maxima=self.maxima,
            samples=self.samples,
            inconclusive=self.inconclusive,
            inconclusive_why=self.inconclusive_why,
            known_hits=self.known_hits,
        )


# ------------------------------------------------------------------------------------------
# helpers


def env_seed() -> int:
    try:
        return int(os.environ.get("VERIF_SEED", "1"))
    except ValueError:
        return zlib.crc32(os.environ.get("VERIF_SEED", "1").encode())


def derive_seed(seed: int, pid: str, sub: str, shard: int) -> int:
    return zlib.crc32(f"{seed}|{pid}|{sub}|{shard}".encode()) & 0x7FFFFFFF


def load_known(pid: str) -> list:
    """KNOWN_FINDINGS.json (authoritative) + staging files findings/*.json; read-only."""
    paths = [os.path.join(VERIF, "KNOWN_FINDINGS.json")]
    fd = os.path.join(VERIF, "findings")
    if os.path.isdir(fd):
        paths += [os.path.join(fd, f) for f in sorted(os.listdir(fd)) if f.endswith(".json")]
    out = []
    seen = set()
    for path in paths:
        if not os.path.exists(path):
            continue
        with open(path) as f:
            data = json.load(f)
        for e in data.get("findings", []):
            if e.get("property") == pid and e.get("id") not in seen:
                seen.add(e.get("id"))
                out.append(e)
    return out


def in_easyfea(tb) -> Optional[str]:
    """innermost frame of the traceback that lies in the EasyFEA package, as 'file:func'."""
    frames = traceback.extract_tb(tb)
    for fr in reversed(frames):
        fn = fr.filename.replace("\\", "/")
        if "/EasyFEA/" in fn and "/verif/" not in fn:
            return f"{fn.split('/EasyFEA/', 1)[1]}:{fr.name}"
    return None


def innermost_is_easyfea(tb) -> bool:
    frames = traceback.extract_tb(tb)
    if not frames:
        return False
    # skip numpy / scipy frames below EasyFEA: what matters is whether the exception surfaced
    # from a call made by EasyFEA code rather than by harness code.
    for fr in reversed(frames):
        fn = fr.filename.replace("\\", "/")
        if "/verif/" in fn:
            return False
        if "/EasyFEA/" in fn:
            return True
    return False


def import_module(pid: str):
    import importlib

    checks_dir = os.path.join(VERIF, "checks")
    names = [
        f[:-3] for f in sorted(os.listdir(checks_dir)) if f.lower().startswith(pid.lower()) and f.endswith(".py")
    ]
    if not names:
        raise SystemExit(f"no check module for {pid}")
    return importlib.import_module("checks." + names[0])


def setup_paths():
    if VERIF not in sys.path:
        sys.path.insert(0, VERIF)
    if REPO not in sys.path:
        sys.path.insert(0, REPO)
    import warnings

    warnings.filterwarnings("ignore", category=DeprecationWarning)
    import EasyFEA  # noqa

    f = os.path.realpath(EasyFEA.__file__)
    if not f.startswith(os.path.realpath(REPO) + "/"):
        print(f"HARNESS-ERROR: EasyFEA imported from {f}, expected under {REPO}")
        sys.exit(2)


# ------------------------------------------------------------------------------------------
# one (sub, shard) task; runs in a worker process


def run_task(pid: str, subname: str, tier: str, seed: int, shard: int) -> dict:
    setup_paths()
    import numpy as np

    np.seterr(all="ignore")
    if os.environ.get("VERIF_VERBOSE") != "1":
        sys.stdout = open(os.devnull, "w")  # EasyFEA prints advice/progress; keep the report clean
    mod = import_module(pid)
    sub = next(s for s in mod.SUBS if s.name == subname)
    known = load_known(pid)
    rec = Rec(pid, subname, known)
    t0 = time.time()
    out = dict(sub=subname, shard=shard, violation=None, harness_error=None, exhaustive=False)
    last = {"case": None}

    def one(case):
        last["case"] = case
        rec.begin(case)
        try:
            sub.check(case, rec)
        except Inconclusive as e:
            rec.inconclusive += 1
            w = str(e)[:80]
            rec.inconclusive_why[w] = rec.inconclusive_why.get(w, 0) + 1
            return
        rec.end()

    try:
        if sub.enum is not None and sub.gen is None:
            for case in sub.enum(tier):
                one(case)
            out["exhaustive"] = True
        else:
            import hypothesis
            from hypothesis import HealthCheck, given, settings

            n = sub.quick if tier == "quick" else sub.thorough
            n = max(1, int(n * float(os.environ.get("VERIF_SCALE", "1"))))
            strat = sub.gen() if callable(sub.gen) and not hasattr(sub.gen, "example") else sub.gen
            hseed = derive_seed(seed, pid, subname, shard)

            @hypothesis.seed(hseed)
            @settings(
                max_examples=n,
                database=None,
                deadline=None,
                derandomize=False,
                report_multiple_bugs=False,
                suppress_health_check=list(HealthCheck),
                print_blob=False,
            )
            @given(strat)
            def prop(case):
                one(case)

            prop()
    except Violation as v:
        out["violation"] = dict(
            oracle=v.oracle, msg=v.msg, sig=v.sig, case=last["case"], kind="oracle"
        )
    except BaseException as e:  # noqa
        if isinstance(e, (KeyboardInterrupt, SystemExit)):
            raise
        tb = e.__traceback__
        where = in_easyfea(tb)
        txt = "".join(traceback.format_exception(type(e), e, tb))[-3000:]
        if where is not None and innermost_is_easyfea(tb) and last["case"] is not None:
            oracle = f"exception:{type(e).__name__}@{where}"
            sig = {"exception": type(e).__name__, "where": where}
            ent = rec.is_known(oracle, sig) or rec.is_known("exception", sig)
            if ent is not None:
                # a listed crash class; cannot continue this Hypothesis run past it, so the
                # checks exclude such classes by construction. Reaching here means the generator
                # does not: report as harness error to get it fixed, never as VIOLATION.
                out["harness_error"] = f"known crash class {ent['id']} reached at run time\n{txt}"
            else:
                out["violation"] = dict(
                    oracle=oracle,
                    msg=f"{type(e).__name__}: {e}"[:500],
                    sig=sig,
                    case=last["case"],
                    kind="exception",
                    traceback=txt,
                )
        else:
            out["harness_error"] = txt
    out["rec"] = rec.export()
    out["wall_s"] = time.time() - t0
    return out


def _task_entry(args):
    try:
        return run_task(*args)
    except BaseException as e:  # noqa
        return dict(
            sub=args[1],
            shard=args[4],
            violation=None,
            harness_error="".join(traceback.format_exception(type(e), e, e.__traceback__))[-3000:],
            rec=None,
            wall_s=0.0,
            exhaustive=False,
        )


# ------------------------------------------------------------------------------------------
# replay


def replay_file(path: str, quiet=False):
    """returns ('pass'|'violation'|'error', message)"""
    setup_paths()
    import numpy as np

    np.seterr(all="ignore")
    with open(path) as f:
        rp = json.load(f)
    pid, subname, case = rp["property"], rp["sub"], rp["case"]
    mod = import_module(pid)
    sub = next((s for s in mod.SUBS if s.name == subname), None)
    if sub is None:
        return "error", f"sub-check {subname} not found in {pid}"
    rec = Rec(pid, subname, [] if rp.get("ignore_known", True) else load_known(pid))
    rec.begin(case)
    try:
        sub.check(case, rec)
    except Inconclusive as e:
        return "pass", f"inconclusive: {e}"
    except Violation as v:
        return "violation", str(v)
    except BaseException as e:  # noqa
        if isinstance(e, (KeyboardInterrupt, SystemExit)):
            raise
        tb = e.__traceback__
        if in_easyfea(tb) is not None and innermost_is_easyfea(tb):
            return "violation", f"exception:{type(e).__name__}@{in_easyfea(tb)}: {e}"[:600]
        return "error", "".join(traceback.format_exception(type(e), e, tb))[-2000:]
    return "pass", "oracle holds"


# ------------------------------------------------------------------------------------------
# property driver (parent process)


def run_property(pid: str, tier: str, only_sub: Optional[str] = None) -> int:
    setup_paths()
    seed = env_seed()
    t0 = time.time()
    mod = import_module(pid)
    subs = [s for s in mod.SUBS if only_sub in (None, s.name)]
    known = load_known(pid)
    lines = []
    violations = []
    harness_errors = []

    # 1. regression tier: committed replays (fixed findings + shrunk failures) must pass;
    #    known findings print KNOWN-FINDING while they still reproduce.
    reg_dir = os.path.join(VERIF, "replays", "regress")
    n_reg = 0
    known_replays = {e.get("replay"): e for e in known if e.get("status") == "known" and e.get("replay")}
    tasks_reg = []
    if os.path.isdir(reg_dir) and only_sub is None:
        for fn in sorted(os.listdir(reg_dir)):
            if fn.startswith(pid + "_") and fn.endswith(".json"):
                tasks_reg.append(os.path.join("replays", "regress", fn))

    tasks = []
    for s in subs:
        nsh = 1
        if tier == "thorough" and s.gen is not None:
            nsh = max(1, s.shards)
        for sh in range(nsh):
            tasks.append((pid, s.name, tier, seed, sh))

    import multiprocessing as mp
    from concurrent.futures import ProcessPoolExecutor

    nproc = int(os.environ.get("VERIF_JOBS", "0")) or min(16, os.cpu_count() or 1)
    nproc = max(1, min(nproc, len(tasks) + (1 if tasks_reg else 0)))
    results = []
    reg_results = []
    ctx = mp.get_context("spawn")
    with ProcessPoolExecutor(max_workers=nproc, mp_context=ctx) as ex:
        futs_reg = [ex.submit(_replay_entry, os.path.join(VERIF, p)) for p in tasks_reg]
        futs = [ex.submit(_task_entry, t) for t in tasks]
        for p, f in zip(tasks_reg, futs_reg):
            reg_results.append((p, f.result()))
        for f in futs:
            results.append(f.result())

    reproduced_known = set()
    for p, (status, msg) in reg_results:
        n_reg += 1
        ent = known_replays.get(p)
        if ent is not None:
            if status == "violation":
                reproduced_known.add(ent["id"])
            elif status == "error":
                harness_errors.append(f"regress replay {p}: {msg}")
            else:
                lines.append(f"NOTE: known finding {ent['id']} no longer reproduces from {p}")
        else:
            if status == "violation":
                violations.append(dict(sub="regress", replay=p, msg=msg))
            elif status == "error":
                harness_errors.append(f"regress replay {p}: {msg}")

    # 2. merge sub results
    evaluations = 0
    nt_keys = set()
    labels = {}
    maxima = {}
    samples = []
    inconclusive = 0
    inconclusive_why = {}
    known_hits = {}
    per_sub = {}
    exhaustive_subs = []
    found_dir = os.path.join(VERIF, "replays", "found")
    for r in results:
        rec = r.get("rec")
        ps = per_sub.setdefault(r["sub"], dict(evaluations=0, nontrivial=0, inconclusive=0, wall_s=0.0))
        ps["wall_s"] = round(ps["wall_s"] + r.get("wall_s", 0.0), 2)
        if rec:
            evaluations += rec["evaluations"]
            ps["evaluations"] += rec["evaluations"]
            ps["inconclusive"] += rec["inconclusive"]
            before = len(nt_keys)
            nt_keys.update(rec["nontrivial_keys"])
            ps["nontrivial"] += len(nt_keys) - before
            for k, v in rec["labels"].items():
                labels[k] = labels.get(k, 0) + v
            for k, v in rec["maxima"].items():
                maxima[k] = max(maxima.get(k, -1.0), v)
            for smp in rec["samples"]:
                if sum(1 for x in samples if x["sub"] == smp["sub"]) < 2 and len(samples) < 12:
                    samples.append(smp)
            inconclusive += rec["inconclusive"]
            for k, v in rec["inconclusive_why"].items():
                inconclusive_why[k] = inconclusive_why.get(k, 0) + v
            for k, v in rec["known_hits"].items():
                known_hits[k] = known_hits.get(k, 0) + v
        if r.get("exhaustive"):
            exhaustive_subs.append(r["sub"])
        if r.get("harness_error"):
            harness_errors.append(f"{r['sub']}[{r['shard']}]: {r['harness_error']}")
        v = r.get("violation")
        if v:
            os.makedirs(found_dir, exist_ok=True)
            h = hashlib.sha1(json.dumps(v["case"], sort_keys=True, default=str).encode()).hexdigest()[:10]
            rp = os.path.join("replays", "found", f"{pid}_{r['sub']}_{h}.json")
            with open(os.path.join(VERIF, rp), "w") as f:
                json.dump(
                    dict(
                        property=pid,
                        sub=r["sub"],
                        case=v["case"],
                        oracle=v["oracle"],
                        message=v["msg"],
                        sig=v["sig"],
                        seed=seed,
                        tier=tier,
                        shrunk=True,
                        traceback=v.get("traceback"),
                    ),
                    f,
                    indent=1,
                    default=str,
                )
            violations.append(dict(sub=r["sub"], replay=rp, msg=f"[{v['oracle']}] {v['msg']}"))

    # 3. known-finding lines
    for ent in known:
        if ent.get("status") != "known":
            continue
        if ent["id"] in reproduced_known or known_hits.get(ent["id"], 0) > 0:
            lines.append(f"KNOWN-FINDING: property={pid} {ent['id']}: {ent['what']}")

    wall = time.time() - t0
    # 4. evidence
    ev = dict(
        property_id=pid,
        tier=tier,
        seed=seed,
        level="exploration",
        coverage=dict(
            evaluations=int(evaluations + n_reg),
            distinct_nontrivial=int(len(nt_keys)),
            rule=getattr(mod, "RULE", ""),
            samples=samples if samples else [{"note": "no non-trivial sample recorded"}],
            exhaustive_subchecks=exhaustive_subs,
            exhaustive=bool(exhaustive_subs) and len(exhaustive_subs) == len(subs),
            per_subcheck=per_sub,
            class_histogram=dict(sorted(labels.items())),
            max_honest_error=dict(sorted(maxima.items())),
            inconclusive=inconclusive,
            inconclusive_reasons=inconclusive_why,
            excluded_known=known_hits,
            regress_replays=n_reg,
            shards=len(tasks),
        ),
        assumptions=list(getattr(mod, "ASSUMPTIONS", [])),
        wall_s=round(wall, 2),
        violations=len(violations),
    )
    if only_sub is None:
        # evidence is only written for runs against /repo itself; runs against a scratch copy
        # (VERIF_REPO, used for mutants) go to a scratch directory
        ev_dir = os.path.join(VERIF, "evidence") if os.path.realpath(REPO) == "/repo" else "/tmp/verif_scratch_evidence"
        os.makedirs(ev_dir, exist_ok=True)
        with open(os.path.join(ev_dir, f"{pid}.json"), "w") as f:
            json.dump(ev, f, indent=1, default=str)

    for l in lines:
        print(l)
    if os.environ.get("VERIF_SHOW_MAXIMA"):
        # calibration aid: the largest honest error ratios of the run (also part of the evidence file)
        for k_, v_ in sorted(maxima.items()):
            print(f"   max {k_} = {v_:.3e}")
    print(
        f"{pid} tier={tier} seed={seed}: {evaluations} cases, {len(nt_keys)} distinct non-trivial, "
        f"{inconclusive} inconclusive, {sum(known_hits.values())} in known classes, {wall:.1f}s"
    )
    for name, ps in per_sub.items():
        print(f"   {name:28s} cases={ps['evaluations']:6d} nontrivial={ps['nontrivial']:6d} "
              f"inconcl={ps['inconclusive']:4d} {ps['wall_s']:7.1f}s")
    if violations:
        for v in violations:
            print(f"   {v['sub']}: {v['msg'][:400]}")
        for v in violations:
            print(f"VIOLATION property={pid} replay={v['replay']}")
        return 1
    if harness_errors:
        for h in harness_errors:
            print("HARNESS-ERROR:", h)
        return 2
    if len(nt_keys) < 2 and only_sub is None:
        print("HARNESS-ERROR: fewer than 2 non-trivial cases")
        return 2
    return 0


def _replay_entry(path):
    try:
        if os.environ.get("VERIF_VERBOSE") != "1":
            sys.stdout = open(os.devnull, "w")
        return replay_file(path, quiet=True)
    except BaseException as e:  # noqa
        return "error", "".join(traceback.format_exception(type(e), e, e.__traceback__))[-2000:]
